"""Extraction of the real source: modules, classes, functions, literal tables.

Every run re-reads /repo (or $PYVC_REPO) from disk.  Nothing is cached between runs.
What extraction drops is exactly: docstrings, comments, `__doc__` assignments (see DESIGN.md 2.1).
"""
import ast
import hashlib
import os

REPO = os.environ.get('PYVC_REPO', '/repo')
DATA_DIR = os.path.join(REPO, 'pgradd', 'data')
if REPO != '/repo':
    # scratch copies: the run-time stand-ins must import the same tree the obligations were generated from
    import sys
    sys.path.insert(0, REPO)
    os.environ['PYTHONPATH'] = REPO + (os.pathsep + os.environ['PYTHONPATH'] if os.environ.get('PYTHONPATH') else '')


class ModuleInfo:
    def __init__(self, relpath):
        self.relpath = relpath
        self.path = os.path.join(REPO, relpath)
        with open(self.path, encoding='utf-8') as f:
            self.text = f.read()
        self.tree = ast.parse(self.text, filename=self.path)
        self.lines = self.text.splitlines()
        self.classes = {}
        self.functions = {}
        self.assigns = {}      # name -> ast value node (module-level simple assignments, last one wins)
        self.imports = {}      # local name -> ('module', dotted, level) | ('from', dotted, name, level)
        self.star_imports = []  # (dotted, level)
        for node in self.tree.body:
            if isinstance(node, ast.ClassDef):
                self.classes[node.name] = ClassInfo(node, self)
            elif isinstance(node, ast.FunctionDef):
                self.functions[node.name] = node
            elif isinstance(node, ast.Assign):
                for t in node.targets:
                    if isinstance(t, ast.Name):
                        self.assigns[t.id] = node.value
            elif isinstance(node, ast.Import):
                for a in node.names:
                    self.imports[a.asname or a.name.split('.')[0]] = ('module', a.name, 0)
            elif isinstance(node, ast.ImportFrom):
                for a in node.names:
                    if a.name == '*':
                        self.star_imports.append((node.module or '', node.level))
                    else:
                        self.imports[a.asname or a.name] = ('from', node.module or '', a.name, node.level)

    def __repr__(self):
        return '<module %s>' % self.relpath

    def literal(self, name):
        return ast.literal_eval(self.assigns[name])

    def segment(self, node):
        return ast.get_source_segment(self.text, node)


class ClassInfo:
    def __init__(self, node, module, builtin_bases=None):
        self.node = node
        self.module = module
        self.name = node.name if node is not None else None
        self.methods = {}
        self.attrs = {}
        self.kinds = {}     # method name -> 'classmethod' | 'staticmethod' | 'method'
        self.base_nodes = node.bases if node is not None else []
        self.bases = None   # resolved lazily by the engine -> list[ClassInfo]
        if node is not None:
            # the class body is executed in order: a later binding of a name replaces an earlier one,
            # and `a = b` copies whatever b is bound to at that point (e.g. __truediv__ = __div__)
            ns = {}
            for st in node.body:
                if isinstance(st, ast.FunctionDef):
                    ns[st.name] = ('def', st)
                elif isinstance(st, ast.Assign):
                    for t in st.targets:
                        if isinstance(t, ast.Name):
                            if isinstance(st.value, ast.Name) and st.value.id in ns:
                                ns[t.id] = ns[st.value.id]
                            else:
                                ns[t.id] = ('assign', st.value)
            for name, (k, v) in ns.items():
                if k == 'def':
                    self.methods[name] = v
                    kind = 'method'
                    for d in v.decorator_list:
                        if isinstance(d, ast.Name) and d.id in ('classmethod', 'staticmethod'):
                            kind = d.id
                    self.kinds[name] = kind
                else:
                    self.attrs[name] = v

    def __repr__(self):
        return '<class %s>' % self.name


class BuiltinClass(ClassInfo):
    """A class known only by name (builtin exceptions, extern classes)."""
    def __init__(self, name, bases=()):
        ClassInfo.__init__(self, None, None)
        self.name = name
        self.bases = list(bases)


_modules = {}


def module(relpath):
    if relpath not in _modules:
        _modules[relpath] = ModuleInfo(relpath)
    return _modules[relpath]


def reset():
    _modules.clear()


def find_function(relpath, qualname):
    """Return (ModuleInfo, ClassInfo|None, ast.FunctionDef)."""
    m = module(relpath)
    parts = qualname.split('.')
    if len(parts) == 1:
        return m, None, m.functions[parts[0]]
    c = m.classes[parts[0]]
    return m, c, c.methods[parts[1]]


def strip_docstrings(fn):
    """AST dump of a function with docstrings removed (so a doc edit does not change the hash)."""
    import copy
    fn = copy.deepcopy(fn)
    for node in ast.walk(fn):
        if isinstance(node, (ast.FunctionDef, ast.ClassDef)):
            b = node.body
            if b and isinstance(b[0], ast.Expr) and isinstance(getattr(b[0], 'value', None), ast.Constant) \
                    and isinstance(b[0].value.value, str):
                node.body = b[1:] or [ast.Pass()]
    return ast.dump(fn, include_attributes=False)


def describe(relpath, qualname):
    m, c, fn = find_function(relpath, qualname)
    seg = m.segment(fn) or ''
    return {
        'file': relpath, 'qualname': qualname,
        'lines': [fn.lineno, fn.end_lineno],
        'sha256': hashlib.sha256(seg.encode()).hexdigest(),
        'ast_sha256': hashlib.sha256(strip_docstrings(fn).encode()).hexdigest(),
    }


def skeleton_hash(relpath):
    """what attribute / name resolution in a module depends on besides the bodies of the functions a unit interprets: classes, their
    bases, method names with decorators and parameter names, class-level and module-level assignment targets, imports"""
    m = module(relpath)
    items = []

    def sig(fn):
        return (fn.name, tuple(ast.unparse(d) for d in fn.decorator_list), tuple(a.arg for a in fn.args.args + fn.args.kwonlyargs),
                fn.args.vararg.arg if fn.args.vararg else None, fn.args.kwarg.arg if fn.args.kwarg else None)
    for st in m.tree.body:
        if isinstance(st, ast.ClassDef):
            body = []
            for b in st.body:
                if isinstance(b, ast.FunctionDef):
                    body.append(('def',) + sig(b))
                elif isinstance(b, ast.Assign):
                    body.append(('assign', tuple(ast.unparse(t) for t in b.targets)))
            items.append(('class', st.name, tuple(ast.unparse(b) for b in st.bases), tuple(ast.unparse(d) for d in st.decorator_list), tuple(body)))
        elif isinstance(st, ast.FunctionDef):
            items.append(('def',) + sig(st))
        elif isinstance(st, ast.Assign):
            items.append(('assign', tuple(ast.unparse(t) for t in st.targets)))
        elif isinstance(st, (ast.Import, ast.ImportFrom)):
            items.append(('import', ast.unparse(st)))
    return hashlib.sha256(repr(items).encode()).hexdigest()
