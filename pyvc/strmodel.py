"""String model: methods of str on concrete strings and z3 String terms.

Character classes (isdigit/isdecimal/isalpha/isspace) on symbolic characters are uninterpreted predicates
constrained by facts taken from the running CPython's unicodedata (see char_facts)."""
import z3

from .engine import Builtin, FmtStr, Unsupported, is_z3, z3_of, NotImplementedVal

_Ch = z3.StringSort()
isdigit_ch = z3.Function('isdigit_ch', _Ch, z3.BoolSort())
isdecimal_ch = z3.Function('isdecimal_ch', _Ch, z3.BoolSort())
isalpha_ch = z3.Function('isalpha_ch', _Ch, z3.BoolSort())
isspace_ch = z3.Function('isspace_ch', _Ch, z3.BoolSort())
digit_val = z3.Function('digit_val', _Ch, z3.IntSort())


def ascii_class(c, lo, hi):
    return z3.And(z3.Length(c) == 1, z3.StrLE(z3.StringVal(lo), c) if hasattr(z3, 'StrLE') else z3.StringVal(lo) <= c,
                  c <= z3.StringVal(hi))


def char_facts(chars):
    """Ground facts for the uninterpreted character predicates on the given z3 one-character terms:
    ASCII ranges are exact; outside ASCII only the implications CPython guarantees
    (isdecimal => isdigit; int() accepts a char iff isdecimal) are stated, and a witness
    that isdigit does not imply isdecimal ('\\u00b2') is left possible."""
    fs = []
    for c in chars:
        d = z3.And(z3.StringVal('0') <= c, c <= z3.StringVal('9'))
        asc = c <= z3.StringVal('\x7f')
        fs.append(z3.Implies(d, z3.And(isdigit_ch(c), isdecimal_ch(c))))
        fs.append(z3.Implies(z3.And(asc, z3.Not(d)), z3.And(z3.Not(isdigit_ch(c)), z3.Not(isdecimal_ch(c)))))
        fs.append(z3.Implies(isdecimal_ch(c), isdigit_ch(c)))
        al = z3.Or(z3.And(z3.StringVal('a') <= c, c <= z3.StringVal('z')),
                   z3.And(z3.StringVal('A') <= c, c <= z3.StringVal('Z')))
        fs.append(z3.Implies(al, isalpha_ch(c)))
        fs.append(z3.Implies(z3.And(asc, z3.Not(al)), z3.Not(isalpha_ch(c))))
        fs.append(z3.Implies(isalpha_ch(c), z3.And(z3.Not(isdigit_ch(c)), z3.Not(isspace_ch(c)))))
        fs.append(z3.Implies(isdigit_ch(c), z3.Not(isspace_ch(c))))
        sp = z3.Or([c == z3.StringVal(x) for x in ' \t\n\r\x0b\x0c\x1c\x1d\x1e\x1f'])
        fs.append(z3.Implies(sp, isspace_ch(c)))
        fs.append(z3.Implies(z3.And(asc, z3.Not(sp)), z3.Not(isspace_ch(c))))
    return fs


def int_ok(s):
    raise Unsupported('int() of a symbolic string needs a contract-level model')


def py_int(I, s):
    h = getattr(I.world, 'int_of_str', None)
    if h is None:
        raise Unsupported('int() of a symbolic string without a model')
    return h(I, s)


def py_float(I, s):
    h = getattr(I.world, 'float_of_str', None)
    if h is None:
        raise Unsupported('float() of a symbolic string without a model')
    return h(I, s)


def str_attr(I, v, name):
    W = I.world
    h = getattr(W, 'str_method_hook', None)
    if h is not None:
        r = h(I, v, name)
        if r is not NotImplementedVal:
            return r
    if isinstance(v, FmtStr):
        if name == '__str__':
            return Builtin('str.__str__', lambda I, a, k: v)
        raise Unsupported('method %s of a formatted string' % name)
    if isinstance(v, str):
        if name in ('isdigit', 'isalpha', 'isspace', 'isdecimal', 'isalnum', 'upper', 'lower', 'strip', 'lstrip',
                    'rstrip', 'title', 'capitalize', 'isupper', 'islower'):
            return Builtin('str.' + name, lambda I, a, k: getattr(v, name)(*a))
        if name in ('startswith', 'endswith', 'split', 'replace', 'find', 'index', 'count', 'rsplit', 'splitlines'):
            def f(I, a, k):
                if all(isinstance(x, (str, int, tuple, type(None))) for x in a):
                    try:
                        return getattr(v, name)(*a)
                    except ValueError as e:
                        raise I.exc('ValueError', str(e))
                return str_attr(I, z3.StringVal(v), name).fn(I, a, k)
            return Builtin('str.' + name, f)
        if name == 'join':
            def f(I, a, k):
                items = list(I.iterate(a[0]))
                if all(isinstance(x, str) for x in items):
                    return v.join(items)
                if any(not (isinstance(x, (str, FmtStr)) or (is_z3(x) and z3.is_string(x)) or getattr(x, 'is_text', False)) for x in items):
                    raise I.exc('TypeError', 'sequence item: expected str instance')
                if any(isinstance(x, FmtStr) or getattr(x, 'is_text', False) for x in items):
                    return FmtStr([('join', v, items)])
                out = None
                for i, x in enumerate(items):
                    t = z3_of(x)
                    out = t if out is None else z3.Concat(out, z3.StringVal(v), t) if v else z3.Concat(out, t)
                return out if out is not None else ''
            return Builtin('str.join', f)
        if name == 'format':
            def f(I, a, k):
                if all(isinstance(x, (str, int, float, bool, type(None))) for x in list(a) + list(k.values())):
                    return v.format(*a, **k)
                return FmtStr([('format', v, tuple(a), k)])
            return Builtin('str.format', f)
        v = z3.StringVal(v)
    # z3 string
    if name == 'startswith':
        return Builtin('str.startswith', lambda I, a, k: z3.PrefixOf(z3_of(a[0]), v))
    if name == 'endswith':
        return Builtin('str.endswith', lambda I, a, k: z3.SuffixOf(z3_of(a[0]), v))
    if name in ('isdigit', 'isalpha', 'isspace', 'isdecimal'):
        def f(I, a, k):
            h2 = getattr(W, 'str_class_hook', None)
            if h2 is None:
                raise Unsupported('%s on a symbolic string without a model' % name)
            return h2(I, v, name)
        return Builtin('str.' + name, f)
    if name == 'format':
        return Builtin('str.format', lambda I, a, k: FmtStr([('format', v, tuple(a), k)]))
    if name == 'replace':
        RA = z3.Function('ReplaceAll', z3.StringSort(), z3.StringSort(), z3.StringSort(), z3.StringSort())
        return Builtin('str.replace', lambda I, a, k: RA(v, z3_of(a[0]), z3_of(a[1])))
    if name == '__str__':
        return Builtin('str.__str__', lambda I, a, k: v)
    raise Unsupported('str.%s on symbolic string' % name)
