#!/bin/sh
# usage: tools/mut.sh <contract-module> <file-rel-to-repo> <python-expr old> <python-expr new> [unit-filter]
# run one module's units on a scratch copy in which the FIRST occurrence of the text <old> in the file is replaced by <new>
D=$(mktemp -d /tmp/pyvc_mut.XXXXXX)
cp -r /repo/pgradd "$D/pgradd"
python3 - "$D/$2" "$3" "$4" <<'PY' || { echo "MUTATION DID NOT APPLY"; rm -rf "$D"; exit 9; }
import sys
p, old, new = sys.argv[1:]
old = old.encode().decode('unicode_escape'); new = new.encode().decode('unicode_escape')
s = open(p).read()
assert old in s, 'pattern not found'
open(p, 'w').write(s.replace(old, new, 1))
PY
/venv/bin/python -m py_compile "$D/$2" || { echo "MUTANT DOES NOT COMPILE"; rm -rf "$D"; exit 9; }
PYVC_REPO="$D" /verif/.venv/bin/python /verif/tools/run_units.py "$1" $5 2>&1 | grep -v '^WARNING' | cut -c1-300
rm -rf "$D"
