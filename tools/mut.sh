#!/bin/sh
# usage: tools/mut.sh <prop> <file-rel-to-repo> <sed-expr> [unit-filter]   -- run one property's units on a mutated scratch copy
D=$(mktemp -d /tmp/pyvc_mut.XXXXXX)
cp -r /repo/pgradd "$D/pgradd"
sed -i "$3" "$D/$2"
if diff -q "$D/$2" "/repo/$2" >/dev/null; then echo "MUTATION DID NOT APPLY"; rm -rf "$D"; exit 9; fi
PYVC_REPO="$D" /verif/.venv/bin/python /tmp/t1.py "$1" $4 2>&1 | cut -c1-260 | grep -v '^WARNING' | grep -E '^==|Counter|sat |unknown|ERR'
rm -rf "$D"
