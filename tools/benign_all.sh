#!/bin/bash
# usage: tools/benign_all.sh [pattern]   -- behaviour-preserving changes (benign/<id>/patch.diff) must NOT be reported: for every kept change the checks of
# the property it was written for and of every other property whose verified closure contains a touched file are run on a scratch copy of /repo
# (4 changes at a time); prints one line per (change, property) and writes benign/<id>/meta.json.  A VIOLATION line is a false alarm of the machinery.
cd /verif
props_for() {   # properties whose ledger closure mentions one of the files touched by the patch, plus the named property
  python3 - "$1" "$2" <<'PY'
import json, re, sys
patch, own = sys.argv[1:]
files = set(re.findall(r'^\+\+\+ b/(\S+)', open(patch).read(), flags=re.M))
L = json.load(open('/verif/ledger.json'))
out = [own]
for p, units in sorted(L.items()):
    hit = False
    for u in units.values():
        if not isinstance(u, dict):
            continue
        for k in list(u.get('closure', {})) + list(u.get('skeleton', {})):
            if k.split('::')[0] in files:
                hit = True
    if hit and p not in out:
        out.append(p)
print(' '.join(out))
PY
}
run_one() {
  D=$1; ID=$(basename $D); OWN=${ID%%_*}
  PS=$(props_for /verif/$D/patch.diff $OWN)
  tools/scratch_check.sh /verif/$D/patch.diff $PS > $D/check_output.txt 2>&1
  sed -i 's#/tmp/pyvc_scr\.[A-Za-z0-9]*/##' $D/check_output.txt
  python3 - "$D" "$PS" <<'PY'
import json, re, sys
d, ps = sys.argv[1], sys.argv[2].split()
txt = open(d + '/check_output.txt').read()
res = {}
for p in ps:
    lines = [l for l in txt.splitlines() if 'property=%s ' % p in l or l.endswith('property=%s' % p)]
    res[p] = {'violations': sum(l.startswith('VIOLATION') for l in lines), 'undecided': sum(l.startswith('UNDECIDED') for l in lines),
              'checker_errors': sum(l.startswith('CHECKER') for l in lines), 'ok': any(l.startswith('OK') for l in lines)}
m = {'id': d.split('/')[-1], 'kind': 'behaviour-preserving change (must not be reported)', 'checked_properties': ps, 'results': res,
     'patch_applies': 'PATCH-DOES-NOT-APPLY' not in txt, 'false_alarm': any(r['violations'] for r in res.values()),
     'all_ok': all(r['ok'] and not r['violations'] and not r['undecided'] and not r['checker_errors'] for r in res.values())}
json.dump(m, open(d + '/meta.json', 'w'), indent=1)
print('%s %s' % (m['id'], ' '.join('%s:%s' % (p, 'VIOLATION' if r['violations'] else ('undecided' if r['undecided'] else ('checker-error' if r['checker_errors'] else ('ok' if r['ok'] else '?')))) for p, r in res.items())) + ('' if m['patch_applies'] else ' PATCH-DOES-NOT-APPLY'))
PY
}
for D in benign/${1:-*}/; do
  D=${D%/}
  [ -f $D/patch.diff ] || continue
  run_one $D &
  while [ $(jobs -r | wc -l) -ge 4 ]; do sleep 1; done
done
wait
