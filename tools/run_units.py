import sys, importlib, time
sys.path.insert(0,'/verif')
from pyvc import verify
mod=importlib.import_module('contracts.'+sys.argv[1])
flt=sys.argv[2] if len(sys.argv)>2 else ''
for u in mod.UNITS:
    if flt and flt not in u.name: continue
    t=time.time()
    wf=getattr(u,'world_factory',None) or mod.world
    r=verify.verify_unit(u, wf, timeout_s=10)
    obs=r['obligations']
    bad=[o for o in obs if o['status']!='unsat']
    print('== %s: paths=%s obligations=%d bad=%d errors=%s (%.1fs)'%(u.name, r.get('paths'), len(obs), len(bad), [str(e)[:300] for e in r['errors']][:3], time.time()-t))
    seen=set()
    for o in bad:
        if o['name'] in seen: continue
        seen.add(o['name'])
        print('   ', o['status'], o['name'][:160], str(o.get('model'))[:200])
