#!/bin/bash
# usage: tools/seed_all.sh [pattern]   -- re-run the property check for every kept seed (seeded/<id>/patch.diff) on a scratch copy of /repo,
# 5 at a time; updates meta.json (check.*) and check_output.txt; prints one line per seed
cd /verif
run_one() {
  D=$1; ID=$(basename $D)
  P=$(python3 -c "import json;print(json.load(open('$D/meta.json'))['breaks_property'])")
  tools/scratch_check.sh /verif/$D/patch.diff $P > $D/check_output.txt 2>&1
  NV=$(grep -c '^VIOLATION' $D/check_output.txt); NU=$(grep -c '^UNDECIDED' $D/check_output.txt); NE=$(grep -c '^CHECKER' $D/check_output.txt); NA=$(grep -c 'PATCH-DOES-NOT-APPLY' $D/check_output.txt)
  NC=$(grep '^VIOLATION' $D/check_output.txt | grep -vc 'no-failing-input-found')
  sed -i 's#/tmp/pyvc_scr\.[A-Za-z0-9]*/##' $D/check_output.txt
  python3 - "$D" "$P" "$NV" "$NU" "$NE" "$NA" "$NC" <<'PY'
import json, sys
d, p, nv, nu, ne, na, nc = sys.argv[1:]
m = json.load(open(d + '/meta.json'))
m['check'] = {'cmd': 'tools/scratch_check.sh patch.diff %s' % p, 'violations': int(nv), 'violations_with_replayed_input': int(nc), 'undecided': int(nu), 'checker_errors': int(ne),
              'patch_applies': na == '0', 'exit': 1 if int(nv) else (2 if int(nu) else (3 if int(ne) else 0))}
m['detected'] = int(nv) > 0
json.dump(m, open(d + '/meta.json', 'w'), indent=1)
PY
  echo "$ID $P viol=$NV (replayed=$NC) undec=$NU err=$NE noapply=$NA"
}
for D in seeded/${1:-*}/; do
  D=${D%/}
  [ -f $D/patch.diff ] || continue
  run_one $D &
  while [ $(jobs -r | wc -l) -ge 5 ]; do sleep 1; done
done
wait
