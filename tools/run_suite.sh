#!/bin/sh
# the repository's pinned suite (command from /root/.vp/BASELINE.json), guard off -- preceded by a byte-compile and import of
# every module (the suite does not import e.g. ReactionQueryRead, so a syntax error there would go unnoticed)
cd /repo || exit 1
/venv/bin/python - <<'PY' || { echo "IMPORT/COMPILE FAILURE"; exit 1; }
import compileall, sys, importlib, io, contextlib
ok = compileall.compile_dir('pgradd', quiet=2, force=True)
if not ok: sys.exit(1)
import pkgutil, pgradd
with contextlib.redirect_stdout(io.StringIO()):
    for m in pkgutil.walk_packages(pgradd.__path__, 'pgradd.'):
        if '.tests' in m.name or m.name.endswith('DrawMol'): continue
        importlib.import_module(m.name)
PY
find /repo/pgradd -name __pycache__ -type d -prune -exec rm -rf {} + 2>/dev/null
/venv/bin/python -m pytest -ra -q -p no:cacheprovider --timeout=900 --continue-on-collection-errors "$@"
