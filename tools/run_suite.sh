#!/bin/sh
# the repository's pinned suite (command from /root/.vp/BASELINE.json), guard off
cd /repo && /venv/bin/python -m pytest -ra -q -p no:cacheprovider --timeout=900 --continue-on-collection-errors "$@"
