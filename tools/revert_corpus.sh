#!/bin/sh
# usage: tools/revert_corpus.sh   -- for every "fixed:" entry of known_findings.txt: reverse patch of the fix commit on a scratch copy,
# run the property's check, record under seeded/revert_<commit>/ (patch.diff, check_output.txt, meta.json)
cd /verif
grep '^fixed:' known_findings.txt | while read -r _ prop commit rest; do
  P=${prop#property=}
  echo "$P $commit"
done | sort -u > /tmp/revert_list.txt
run_one() {
  P=$1; C=$2; O=/verif/seeded/revert_${P}_$C; mkdir -p $O
  git -C /repo diff $C $C~1 -- pgradd > $O/patch.diff
  tools/scratch_check.sh $O/patch.diff $P > $O/check_output.txt 2>&1
  NV=$(grep -c '^VIOLATION' $O/check_output.txt); NU=$(grep -c '^UNDECIDED' $O/check_output.txt); NE=$(grep -c '^CHECKER' $O/check_output.txt); NA=$(grep -c 'PATCH-DOES-NOT-APPLY' $O/check_output.txt)
  SUBJ=$(git -C /repo log -1 --format=%s $C)
  python3 - "$P" "$C" "$NV" "$NU" "$NE" "$NA" "$SUBJ" <<'PY'
import json, sys
p, c, nv, nu, ne, na, subj = sys.argv[1:]
json.dump({'id': 'revert_%s_%s' % (p, c), 'breaks_property': p, 'kind': 'reverse patch of a fix: commit (re-introduces a repaired defect)', 'fix_commit': c, 'fix_subject': subj,
           'check': {'cmd': 'tools/scratch_check.sh patch.diff %s' % p, 'violations': int(nv), 'undecided': int(nu), 'checker_errors': int(ne), 'patch_applies': na == '0'},
           'detected': int(nv) > 0}, open('/verif/seeded/revert_%s_%s/meta.json' % (p, c), 'w'), indent=1)
PY
  echo "$P $C viol=$NV undec=$NU err=$NE noapply=$NA"
}
export -f run_one 2>/dev/null
while read -r P C; do
  run_one $P $C &
  while [ $(jobs -r | wc -l) -ge 5 ]; do sleep 1; done
done < /tmp/revert_list.txt
wait
