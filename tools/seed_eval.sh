#!/bin/sh
# usage: tools/seed_eval.sh <seed-id> <property> [src-dir]   e.g. tools/seed_eval.sh C01_1 C01 /tmp/seed_out/C01_1
# 1. confirms the seeded change in a scratch worktree (suite passes, demo fails with / passes without)
# 2. runs ./check <property> against a scratch copy of /repo with the patch applied (/repo itself is not touched)
ID=$1; PROP=$2; SRC=${3:-/verif/seeded/$ID}
OUT=/verif/seeded/$ID
mkdir -p $OUT
[ "$SRC" != "$OUT" ] && cp $SRC/patch.diff $SRC/demo.py $OUT/ && [ -f $SRC/notes.md ] && cp $SRC/notes.md $OUT/
WT=$(mktemp -d /tmp/seedchk.XXXXXX); rmdir $WT
git -C /repo worktree add -q --detach $WT HEAD || exit 9
cd $WT
if ! git apply $OUT/patch.diff 2>/dev/null; then
  if ! git apply -C1 --recount $OUT/patch.diff 2>/dev/null; then echo "PATCH-DOES-NOT-APPLY $ID"; cd /; git -C /repo worktree remove --force $WT; exit 8; fi
  git diff > $OUT/patch.diff   # re-based patch
fi
SUITE=$(PYTHONPATH=$WT /venv/bin/python -m pytest -q -p no:cacheprovider pgradd/tests 2>&1 | tail -1)
PYTHONPATH=$WT /venv/bin/python $OUT/demo.py >/dev/null 2>&1; DEMO_WITH=$?
git checkout -q -- .
PYTHONPATH=$WT /venv/bin/python $OUT/demo.py >/dev/null 2>&1; DEMO_WITHOUT=$?
cd /; git -C /repo worktree remove --force $WT
echo "$ID suite: $SUITE | demo with=$DEMO_WITH without=$DEMO_WITHOUT"
cd /verif
tools/scratch_check.sh $OUT/patch.diff $PROP > $OUT/check_output.txt 2>&1
sed -i 's#/tmp/pyvc_scr\.[A-Za-z0-9]*/##' $OUT/check_output.txt
RC=$(grep -q '^VIOLATION' $OUT/check_output.txt && echo 1 || echo 0)
NV=$(grep -c '^VIOLATION' $OUT/check_output.txt)
NU=$(grep -c '^UNDECIDED' $OUT/check_output.txt)
echo "$ID check $PROP exit=$RC violations=$NV undecided=$NU"
grep -E '^(VIOLATION|UNDECIDED|CHECKER)' $OUT/check_output.txt | head -4 | cut -c1-220
python3 - "$ID" "$PROP" "$SUITE" "$DEMO_WITH" "$DEMO_WITHOUT" "$RC" "$NV" "$NU" <<'PY'
import json, sys, os
i, prop, suite, dw, dwo, rc, nv, nu = sys.argv[1:]
p = '/verif/seeded/%s/meta.json' % i
m = json.load(open(p)) if os.path.exists(p) else {}
m.update({'id': i, 'breaks_property': prop, 'confirmed': {'suite_with_change': suite, 'demo_exit_with_change': int(dw), 'demo_exit_without_change': int(dwo)},
          'check': {'cmd': 'tools/scratch_check.sh patch.diff %s' % prop, 'exit': int(rc), 'violations': int(nv), 'undecided': int(nu)},
          'ran': ['git apply patch.diff in a scratch worktree; pytest pgradd/tests; demo.py with and without the change',
                  'tools/scratch_check.sh patch.diff %s  (scratch copy of /repo with the patch)' % prop]})
json.dump(m, open(p, 'w'), indent=1)
PY
