#!/bin/sh
# usage: tools/scratch_check.sh <patch-file> <property> [<property>...]   -- run checks against a scratch copy of /repo with the patch applied
# (the scratch copy lives under /tmp and is removed afterwards; /repo itself is not touched, so several can run in parallel)
PATCH=$1; shift
D=$(mktemp -d /tmp/pyvc_scr.XXXXXX)
cp -r /repo/pgradd "$D/pgradd"
( cd "$D" && git init -q . && { git apply "$PATCH" 2>/dev/null || git apply -C1 --recount "$PATCH"; } ) || { echo "PATCH-DOES-NOT-APPLY"; rm -rf "$D"; exit 8; }
rm -rf "$D/.git"
RC=0
for P in "$@"; do
  PYVC_REPO="$D" PYVC_OUT="$D/out" /verif/check "$P" 2>&1 | grep -E '^(VIOLATION|UNDECIDED|CHECKER|OK|KNOWN)' | cut -c1-230
done
rm -rf "$D"
