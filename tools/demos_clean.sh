#!/bin/bash
# usage: tools/demos_clean.sh  -- every kept seed's demo.py (written by its author to exit 0 when the property holds) is run against the CURRENT /repo:
# all must exit 0 (a demo that fails on the clean tree means a repo fix changed behaviour a demonstration relies on, or the demo observes a recorded finding)
cd /verif
run() { s=$1; [ -f seeded/$s/demo.py ] || return; D=$(mktemp -d /tmp/dm.XXXXXX); cp seeded/$s/demo.py $D/; (cd $D && PYTHONPATH=/repo timeout 900 /venv/bin/python demo.py > $D/out.txt 2>&1; rc=$?; [ $rc -ne 0 ] && { echo "$s exit=$rc"; tail -5 $D/out.txt | cut -c1-200; }); rm -rf $D; }
for s in $(ls seeded); do run $s & while [ $(jobs -r | wc -l) -ge 6 ]; do sleep 0.5; done; done; wait; echo demos-done
