#!/bin/sh
# Build the overlay venv /verif/.venv offline: /venv's python 3.12 + z3/cvc5/crosshair/deal/icontract/jsonschema
# from the wheelhouse, plus a .pth that exposes /venv's site-packages (rdkit, numpy, scipy, pmutt, yaml, pgradd).
set -e
cd "$(dirname "$0")/.."
V=.venv
if [ -x "$V/bin/python" ] && "$V/bin/python" -c "import z3, rdkit, numpy, jsonschema" 2>/dev/null; then
  echo "overlay venv ok"; exit 0
fi
rm -rf "$V"
/venv/bin/python -m venv "$V"
PIP_NO_INDEX=1 "$V/bin/pip" install -q --no-index --find-links /opt/veriftools/wheels \
   z3-solver cvc5 jsonschema crosshair-tool deal icontract hypothesis >/dev/null
SP=$("$V/bin/python" -c "import sysconfig;print(sysconfig.get_paths()['purelib'])")
echo "import site; site.addsitedir('/venv/lib/python3.12/site-packages')" > "$SP/_repo_overlay.pth"
"$V/bin/python" -c "import z3, rdkit, numpy, jsonschema; print('overlay venv built', z3.get_version_string())"
