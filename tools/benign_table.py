#!/usr/bin/env python3
"""benign/TABLE.md from benign/*/meta.json (written by tools/benign_all.sh)."""
import glob, json, os
ROOT = os.path.dirname(os.path.dirname(os.path.abspath(__file__)))
rows = []
for mp in sorted(glob.glob(os.path.join(ROOT, 'benign', '*', 'meta.json'))):
    m = json.load(open(mp))
    res = ' '.join('%s:%s' % (p, 'VIOLATION' if r['violations'] else ('undecided' if r['undecided'] else ('checker-error' if r['checker_errors'] else ('ok' if r['ok'] else '?'))))
                   for p, r in m['results'].items())
    rows.append((m['id'], ' '.join(m['checked_properties']), res))
with open(os.path.join(ROOT, 'benign', 'TABLE.md'), 'w') as f:
    f.write('# Behaviour-preserving changes (must not be reported)\n\n| id | checked properties | result |\n|---|---|---|\n')
    for r in rows:
        f.write('| %s | %s | %s |\n' % r)
print(len(rows), 'rows;', sum('VIOLATION' in r[2] for r in rows), 'false alarms;', sum('undecided' in r[2] for r in rows), 'with undecided units;', sum('checker-error' in r[2] for r in rows), 'checker errors')
